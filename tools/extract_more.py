"""Further generators for tools/extract.py (one function per Generated/*.lean file)."""
import datetime
import inspect
import json
import os
from fractions import Fraction

import numpy as np

from extract import HEADER, lbool, lint, llist, lrat, lstr

EPOCH = datetime.date(1970, 1, 1)


def gen_pod_epochs(info):
    """Header-epoch choice of PODReader, extracted by exhaustive probing over all dates 1978..2030."""
    from pygac import pod_reader
    from pygac.pod_reader import PODReader
    hdrs = {id(pod_reader.header1): 1, id(pod_reader.header2): 2, id(pod_reader.header3): 3}
    segs = []
    d = datetime.date(1978, 1, 1)
    end = datetime.date(2030, 12, 31)
    prev = None
    while d <= end:
        h = hdrs.get(id(PODReader.choose_header_based_on_timestamp(d, None)), 0)
        if h != prev:
            segs.append(((d - EPOCH).days, h))
            prev = h
        d += datetime.timedelta(days=1)
    info["pod_epoch_segments"] = segs
    out = [HEADER, "namespace PygacModel.Generated\n",
           "/-- (first day number since 1970-01-01, header epoch) for dates 1978-01-01 .. 2030-12-31 -/\n",
           "def podEpochSegments : List (Int × Nat) := %s\n" % llist(["(%s, %d)" % (lint(a), b) for a, b in segs]),
           "end PygacModel.Generated\n"]
    return "PodEpochs.lean", "".join(out)


GENERATORS = [gen_pod_epochs]


def gen_misc(info):
    """Small constants probed from the live classes."""
    from pygac.gac_klm import GACKLMReader
    from pygac.gac_pod import GACPODReader
    from pygac.lac_klm import LACKLMReader
    from pygac.lac_pod import LACPODReader
    out = [HEADER, "namespace PygacModel.Generated\n"]
    for cname, cls in [("GacKlm", GACKLMReader), ("LacKlm", LACKLMReader),
                       ("GacPod", GACPODReader), ("LacPod", LACPODReader)]:
        r = cls()
        sd = r.scanline_type.fields["sensor_data"][0]
        out.append("def sensorWords%s : Nat := %d\n" % (cname, int(np.prod(sd.shape))))
    # channel-select mask: exhaustive probe of get_ch3_switch over all 16-bit bit fields
    r = GACKLMReader()
    bf = np.arange(65536, dtype=">u2")
    r.scans = np.zeros(65536, dtype=r.scanline_type)
    r.scans["scan_line_bit_field"] = bf
    sw = np.asarray(r.get_ch3_switch()).astype(np.int64)
    m = int(sw[65535])
    is_and = bool((sw == (np.arange(65536) & m)).all())
    info["ch3_switch_mask"] = m
    out.append("def ch3SwitchMask : Nat := %d\n" % m)
    out.append("def ch3SwitchIsAnd : Bool := %s\n" % lbool(is_and))
    out.append("end PygacModel.Generated\n")
    return "Misc.lean", "".join(out)


GENERATORS.append(gen_misc)


def gen_select(info):
    """Acceptance table of the four classes' _validate_header, by exhaustive probing."""
    from pygac.gac_klm import GACKLMReader
    from pygac.gac_pod import GACPODReader
    from pygac.lac_klm import LACKLMReader
    from pygac.lac_pod import LACPODReader
    from pygac.reader import ReaderError
    modes = ["GHRR", "LHRR", "HRPT", "FRAC", "GHRX", "XXXX", "ghrr", "LHR1"]
    plats = ["TN", "NA", "NB", "NC", "ND", "NE", "NF", "NG", "NH", "NI", "NJ",
             "NK", "NL", "NM", "NN", "NP", "M1", "M2", "M3",
             "NO", "NQ", "M4", "M0", "XX", "nl", "N1", "TK"]
    classes = [GACKLMReader, LACKLMReader, GACPODReader, LACPODReader]
    rows = []
    for m in modes:
        for p in plats:
            name = ("NSS.%s.%s.D02187.S1904.E2058.B0921517.GC" % (m, p)).encode()
            acc = []
            for c in classes:
                try:
                    c._validate_header({"data_set_name": name})
                    acc.append(True)
                except ReaderError:
                    acc.append(False)
            rows.append((m, p, acc))
    info["accept_table_true"] = [(m, p, a) for m, p, a in rows if any(a)]
    out = [HEADER, "namespace PygacModel.Generated\n",
           "def probeModes : List String := %s\n" % llist([lstr(m) for m in modes], per_line=8),
           "def probePlats : List String := %s\n" % llist([lstr(p) for p in plats], per_line=14),
           "/-- (mode, platform, [GACKLM, LACKLM, GACPOD, LACPOD] accepts) -/\n",
           "def acceptTable : List (String × String × List Bool) := %s\n" % llist(
               ["(%s, %s, [%s])" % (lstr(m), lstr(p), ", ".join(lbool(x) for x in a)) for m, p, a in rows], per_line=2),
           "end PygacModel.Generated\n"]
    return "Select.lean", "".join(out)


GENERATORS.append(gen_select)
