#!/bin/bash
# runs every seeded change against the check of its property (quick tier); prints one line per seed
cd /verif
export VERIF_EVIDENCE_DIR=/verif/.scratch/evidence-seeded
for d in seeded/C*/; do
  sid=$(basename $d); prop=${sid%%-*}
  neutral=$(grep -c neutralised_by $d/meta.json)
  git -C /repo diff --quiet || { echo "/repo not clean"; exit 9; }
  git -C /repo apply /verif/$d/patch.diff 2>/dev/null || { echo "$sid: PATCH DOES NOT APPLY"; continue; }
  out=$(./check $prop --tier ${TIER:-quick} 2>&1 | grep -E "VIOLATION|obligations" | cut -c1-160 | tr '\n' ' ')
  git -C /repo checkout -- .
  if [ "$neutral" != "0" ]; then
    if echo "$out" | grep -q VIOLATION; then echo "$sid: FALSE ALARM on a neutralised (now behaviour-preserving) seed :: $out"; else echo "$sid: SILENT (neutralised by a later fix, as required)"; fi
  elif echo "$out" | grep -q VIOLATION; then echo "$sid: CAUGHT by $prop :: $(echo $out | sed 's/.*\(C[0-9]* quick.*\)/\1/')"; else echo "$sid: MISSED by $prop :: $out"; fi
done
