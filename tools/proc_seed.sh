#!/bin/bash
# usage: proc_seed.sh <Cxx> <tag> "<needs>" [other Cxx...]  -- confirm, store and try a freshly delivered seed in /tmp/mut/<Cxx><tag>
p=$1; t=$2; needs=$3; shift 3
cd /verif
bash tools/confirm_seed.sh $p$t >/dev/null 2>&1
grep -E 'passed|failed|exit=|applies' /tmp/mut/$p$t/confirm.log | tr '\n' ' '; echo
python3 tools/store_seed.py $p $t "$needs" $p$t
bash tools/try_seed.sh $p-$t $p "$@" 2>&1 | grep -v condarc | grep -E "^---|quick:|exit=|patch does not|not clean" | cut -c1-200
