#!/venv/bin/python
"""ONE-TIME bootstrap of lean/PygacModel/Spec/Layouts.lean (NOT run by any check).

The Spec is the committed, hand-maintained statement of the NOAA level-1b byte layouts
(POD guide sec. 2-3, KLM guide sec. 8.3.1).  It was produced once by flattening the
record descriptions with the format's documented corrections applied by hand
(KLM earth location = 51 pairs of 4-byte integers at bytes 641-1048, record lengths
4608 / 15872), cross-read against the guides' byte tables for the fields the properties
name, and is from then on edited by hand only.  Spare / fill / reserved ranges are
marked `opaque`.
"""
import sys, os, re
sys.path.insert(0, os.path.dirname(os.path.abspath(__file__)))
import numpy as np
from extract import flatten_dtype, lstr, llist, lbool
from pygac import gac_klm, gac_pod, klm_reader, lac_klm, lac_pod, pod_reader

def fix_klm(dt):
    descr = []
    for name in dt.names:
        f = dt.fields[name][0]
        if name == "earth_location":
            descr.append((name, [("lats", ">i4"), ("lons", ">i4")], (51,)))
        elif f.subdtype:
            descr.append((name, f.subdtype[0], f.subdtype[1]))
        else:
            descr.append((name, f))
    return np.dtype(descr)

OPAQUE = re.compile(r"^(zero_fill\d*|spare\d*|reserved\d*|fill\d*|blankfill|ascii_blank_*|reserved_for_.*|.*\.spare|.*\.reserved)$")

def spec_leaf(l):
    n, o, w, k, be, c, s = l
    if OPAQUE.match(n):
        k = "opaque"
    return "⟨%s, %d, %d, .%s, %s, %d, %d⟩" % (lstr(n), o, w, k, lbool(True if k == "opaque" else be), c, s)

items = [
    ("klmGac", "klm_gac_scanline", fix_klm(gac_klm.scanline), 4608),
    ("klmLac", "klm_lac_scanline", fix_klm(lac_klm.scanline), 15872),
    ("podGac", "pod_gac_scanline", gac_pod.scanline, 3220),
    ("podLac", "pod_lac_scanline", lac_pod.scanline, 14800),
    ("klmHeader", "klm_header", klm_reader.header, 424),
    ("klmAnalogV2", "klm_analog_telemetry_v2", klm_reader.analog_telemetry_v2, 264),
    ("klmAnalogV5", "klm_analog_telemetry_v5", klm_reader.analog_telemetry_v5, 556),
    ("arsHeader", "ars_header", klm_reader.ars_header, 512),
    ("podHeader0", "pod_header0", pod_reader.header0, 16),
    ("podHeader1", "pod_header1", pod_reader.header1, 84),
    ("podHeader2", "pod_header2", pod_reader.header2, 188),
    ("podHeader3", "pod_header3", pod_reader.header3, 146),
    ("tbmHeader", "tbm_header", pod_reader.tbm_header, 122),
]
out = ["""/-
Spec: byte layouts of the NOAA level-1b formats (POD guide sec. 2-3; KLM guide sec. 8.3.1).
Hand-maintained.  Bootstrapped once by tools/bootstrap_spec.py, then cross-read against the
guides' byte tables; never derived from /repo at check time.  1-based byte ranges of the
guides = (off+1 .. off+extent).  `opaque` = spare / zero fill / reserved.
-/
import PygacModel.Basic
namespace PygacModel.Spec
open PygacModel
"""]
for d, n, dt, size in items:
    assert dt.itemsize == size, (n, dt.itemsize, size)
    leaves = flatten_dtype(dt)
    out.append("def %s : Layout := { name := %s, size := %d, leaves := %s }\n"
               % (d, lstr(n), size, llist([spec_leaf(l) for l in leaves])))
out.append("end PygacModel.Spec\n")
open(os.path.join(os.path.dirname(os.path.abspath(__file__)), "..", "lean", "PygacModel", "Spec", "Layouts.lean"), "w").write("".join(out))
print("spec written")
