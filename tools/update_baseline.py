#!/venv/bin/python
"""Writes tools/fingerprints_baseline.json from /repo's current working tree (run after every commit to /repo)."""
import json, os, sys
sys.path.insert(0, os.path.dirname(os.path.abspath(__file__)))
import extract
fp = extract.source_fingerprints()
with open(os.path.join(os.path.dirname(os.path.abspath(__file__)), "fingerprints_baseline.json"), "w") as fh:
    json.dump(fp, fh, indent=1, sort_keys=True)
print("baseline of %d files written" % len(fp))
