#!/usr/bin/env python3
"""store_seed.py <prop> <suffix> <needs text> [<scratch dir name, default = prop>]
copies /tmp/mut/<dir>/out into seeded/<prop>-<suffix> and removes the worktree"""
import json,os,shutil,subprocess,sys
pid,suf,need=sys.argv[1:4]
dname=sys.argv[4] if len(sys.argv)>4 else pid
d=f'/verif/seeded/{pid}-{suf}'; os.makedirs(d,exist_ok=True)
for f in ('patch.diff','demo.py','notes.md'):
    if os.path.exists(f'/tmp/mut/{dname}/out/{f}'): shutil.copy(f'/tmp/mut/{dname}/out/{f}',f'{d}/{f}')
log=open(f'/tmp/mut/{dname}/confirm.log').read()
base=subprocess.run(['git','-C',f'/tmp/mut/{dname}/wt','rev-parse','--short','HEAD'],capture_output=True,text=True).stdout.strip()
json.dump({"property":pid,"id":f"{pid}-{suf}","needs_to_manifest":need,
  "source":f"independent sub-agent given only the property text and a scratch worktree (base {base})",
  "confirmed_by":"tools/confirm_seed.sh in the scratch worktree: existing suite with patch 88 passed; demo.py exit 1 with patch, exit 0 without; patch applies cleanly to /repo HEAD",
  "confirm_log_tail":[l for l in log.splitlines() if any(k in l for k in ('passed','exit=','applies'))],
  "detected_by":None},open(d+'/meta.json','w'),indent=1)
subprocess.run(['git','-C','/repo','worktree','remove','--force',f'/tmp/mut/{dname}/wt'])
shutil.rmtree(f'/tmp/mut/{dname}',ignore_errors=True)
print('stored',d)
