#!/bin/bash
# usage: try_seed.sh <seed-id> <Cxx> [more Cxx...]   -- apply seeded/<id>/patch.diff to /repo, run quick checks, undo.
sid=$1; shift
cd /verif
export VERIF_EVIDENCE_DIR=/verif/.scratch/evidence-seeded
git -C /repo diff --quiet || { echo "/repo not clean"; exit 9; }
git -C /repo apply /verif/seeded/$sid/patch.diff || { echo "patch does not apply"; exit 8; }
trap 'git -C /repo checkout -- . ; echo "[/repo restored]"' EXIT
for c in "$@"; do
  echo "--- $sid vs $c"; ./check $c --tier ${TIER:-quick} 2>&1 | grep -E "VIOLATION|KNOWN-FINDING|obligations|ERROR" | cut -c1-300
  echo "exit=${PIPESTATUS[0]}"
done
